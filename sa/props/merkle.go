package props

import (
	"fmt"
	"go/ast"
	"go/token"
	"go/types"

	"verif/sa/core"
)

// workerMergeByIndex decides the E5c rule for a fan-out/fan-in in fn:
//   - the worker goroutine is a literal that receives its index and its slice as
//     parameters (it does not capture the loop variable),
//   - what it sends carries that index parameter,
//   - the collector stores each received result at the index it carries,
//   - the number of results awaited equals the number of workers started.
func workerMergeByIndex(r *Run, fn string) {
	f := r.Fn(fn)
	if f == nil {
		return
	}
	c := f.Ctx()
	info := f.Info()
	var spawn *ast.ForStmt
	var gostmt *ast.GoStmt
	core.InspectBody(f, func(x ast.Node) bool {
		fs, ok := x.(*ast.ForStmt)
		if !ok || spawn != nil {
			return true
		}
		for _, st := range fs.Body.List {
			if g, ok := st.(*ast.GoStmt); ok {
				spawn, gostmt = fs, g
			}
		}
		return true
	})
	label := func(s string) string { return fn + ": " + s }
	if spawn == nil {
		r.Fail(label("parallel fan-out"), r.W.Pos(f.Node().Pos()), "no loop that starts worker goroutines found")
		return
	}
	lit, ok := ast.Unparen(gostmt.Call.Fun).(*ast.FuncLit)
	if !ok {
		r.Fail(label("worker is a literal with parameters"), r.W.Pos(gostmt.Pos()), "worker is not a function literal")
		return
	}
	// loop variable
	var loopVar types.Object
	if as, ok := spawn.Init.(*ast.AssignStmt); ok && len(as.Lhs) == 1 {
		loopVar = info.ObjectOf(as.Lhs[0].(*ast.Ident))
	}
	// 1. no capture of the loop variable (or of variables assigned in the loop body)
	assignedInLoop := map[types.Object]bool{loopVar: true}
	for _, st := range spawn.Body.List {
		if as, ok := st.(*ast.AssignStmt); ok {
			for _, l := range as.Lhs {
				if id, ok := l.(*ast.Ident); ok {
					assignedInLoop[info.ObjectOf(id)] = true
				}
			}
		}
	}
	captured := ""
	ast.Inspect(lit.Body, func(x ast.Node) bool {
		if id, ok := x.(*ast.Ident); ok {
			if o := info.Uses[id]; o != nil && assignedInLoop[o] {
				captured = id.Name
			}
		}
		return true
	})
	if captured == "" {
		r.OK(label("worker does not capture per-iteration variables"), r.W.Pos(lit.Pos()), "index and slice are passed as arguments")
	} else {
		r.Fail(label("worker does not capture per-iteration variables"), r.W.Pos(lit.Pos()), fmt.Sprintf("the worker closure captures `%s`, which changes on every iteration: workers may see each other's index or slice", captured))
	}
	// 2. the index parameter is fed by the loop variable and is what the result carries
	idxParam := -1
	for i, a := range gostmt.Call.Args {
		if id, ok := ast.Unparen(a).(*ast.Ident); ok && info.ObjectOf(id) == loopVar {
			idxParam = i
		}
	}
	sig := info.TypeOf(lit).(*types.Signature)
	carries := false
	if idxParam >= 0 && idxParam < sig.Params().Len() {
		pobj := sig.Params().At(idxParam)
		ast.Inspect(lit.Body, func(x ast.Node) bool {
			if ss, ok := x.(*ast.SendStmt); ok {
				ast.Inspect(ss.Value, func(y ast.Node) bool {
					if kv, ok := y.(*ast.KeyValueExpr); ok {
						if id, ok := ast.Unparen(kv.Value).(*ast.Ident); ok && info.ObjectOf(id) == pobj {
							carries = true
						}
					}
					return true
				})
			}
			return true
		})
	}
	if carries {
		r.OK(label("each result carries the index its worker was given"), r.W.Pos(lit.Pos()), "loop index → parameter → field of the sent value")
	} else {
		r.Fail(label("each result carries the index its worker was given"), r.W.Pos(lit.Pos()), "the sent result does not carry the worker's own index parameter")
	}
	// 3. collector: for k := 0; k < N; k++ { sub := <-ch; list[sub.index] = sub.hash }, N the same bound as the spawn loop
	bound := func(fs *ast.ForStmt) string {
		if b, ok := ast.Unparen(fs.Cond).(*ast.BinaryExpr); ok && b.Op == token.LSS {
			return core.CanonExpr(c, b.Y)
		}
		return "?"
	}
	merged, sameBound := false, false
	core.InspectBody(f, func(x ast.Node) bool {
		fs, ok := x.(*ast.ForStmt)
		if !ok || fs == spawn || fs.Cond == nil {
			return true
		}
		var recvVar types.Object
		for _, st := range fs.Body.List {
			as, ok := st.(*ast.AssignStmt)
			if !ok {
				continue
			}
			if len(as.Rhs) == 1 {
				if u, ok := ast.Unparen(as.Rhs[0]).(*ast.UnaryExpr); ok && u.Op == token.ARROW {
					if id, ok := as.Lhs[0].(*ast.Ident); ok {
						recvVar = info.ObjectOf(id)
					}
					continue
				}
			}
			if recvVar == nil {
				continue
			}
			if ix, ok := as.Lhs[0].(*ast.IndexExpr); ok {
				if sel, ok := ast.Unparen(ix.Index).(*ast.SelectorExpr); ok {
					if id, ok := ast.Unparen(sel.X).(*ast.Ident); ok && info.ObjectOf(id) == recvVar {
						if rs, ok := ast.Unparen(as.Rhs[0]).(*ast.SelectorExpr); ok {
							if id2, ok := ast.Unparen(rs.X).(*ast.Ident); ok && info.ObjectOf(id2) == recvVar {
								merged = true
								sameBound = bound(fs) == bound(spawn)
							}
						}
					}
				}
			}
		}
		return true
	})
	if merged {
		r.OK(label("results are merged at the index they carry, not in arrival order"), r.W.Pos(f.Node().Pos()), "list[sub.index] = sub.hash")
	} else {
		r.Fail(label("results are merged at the index they carry, not in arrival order"), r.W.Pos(f.Node().Pos()), "no collector of the form list[received.index] = received.value: the root would depend on goroutine scheduling")
	}
	if sameBound {
		r.OK(label("as many results are awaited as workers were started"), r.W.Pos(f.Node().Pos()), "collector and spawner loop to the same bound "+bound(spawn))
	} else {
		r.Fail(label("as many results are awaited as workers were started"), r.W.Pos(f.Node().Pos()), "the collector's bound differs from the spawner's: a result is dropped or the function blocks")
	}
}

func init() {
	mk := "common/merkle."
	register(&core.Property{
		ID:       "C18",
		Title:    "Transaction root is consistent, provable and binding",
		Packages: []string{"common/merkle", "types"},
		Explanation: "Thin claim, structural clauses only (R18a-R18d): both parallel root computations hand each worker its index and slice as arguments, merge results at the carried index (never in arrival order) and await exactly as many results as workers; " +
			"the mutation flag is set exactly on the equal-siblings comparison and returned; the leaf digests are the transaction hash before ForkRootHash and the signature-covering full hash for the per-chain roots after it, over every transaction in order.",
		NotCovered: "equality of the padded/chunked parallel algorithm with the sequential one, validity of branches and the binding property (hash values: V).",
		Rules: []core.Rule{
			rule("R18a", "GetMerkleRoot: deterministic merge of parallel results", 4, func(r *Run) {
				workerMergeByIndex(r, mk+"GetMerkleRoot")
			}),
			rule("R18b", "Computation: duplicated-tail flag", 2, func(r *Run) {
				fn := mk + "Computation"
				f := r.Fn(fn)
				if f == nil {
					return
				}
				mut := f.Sig().Results().At(1)
				isMut := func(c *core.Ctx, e ast.Expr) bool {
					id, ok := ast.Unparen(e).(*ast.Ident)
					return ok && c.Info.ObjectOf(id) == mut
				}
				setTrue := core.SinkPred{Label: "mutated = true", Match: func(fl *core.Flow, n *core.GNode) bool {
					as, ok := n.Ast.(*ast.AssignStmt)
					if !ok || len(as.Lhs) != 1 || !isMut(fl.C, as.Lhs[0]) {
						return false
					}
					tv, ok := fl.C.Info.Types[as.Rhs[0]]
					return ok && tv.Value != nil && tv.Value.String() == "true"
				}}
				core.Dominated{Fn: fn, Spec: &core.FlowSpec{Conds: []core.CondGuard{core.BoolGuard("siblings-equal", core.CallAtom([]string{"bytes.Equal"}), true)}},
					Sink: setTrue, Need: []Fact{"siblings-equal"}, Min: 1}.Check(r)
				// the comparison is between the stored left sibling and the current hash, before they are combined
				core.CallArgs{Fn: fn, Callee: []string{"bytes.Equal"}, What: "left sibling at this level vs current hash",
					Args: map[int]core.ExprPred{0: func(c *core.Ctx, e ast.Expr) bool { _, ok := ast.Unparen(e).(*ast.IndexExpr); return ok }}, Min: 1}.Check(r)
				// every explicit return after the loops returns the flag variable (second result)
				ok := false
				for _, rn := range f.Graph().Returns() {
					if rs, isRs := rn.Ast.(*ast.ReturnStmt); isRs && len(rs.Results) == 3 && isMut(f.Ctx(), rs.Results[1]) {
						ok = true
					}
				}
				if ok {
					r.OK(fn+" returns the mutation flag it computed", r.W.Pos(f.Node().Pos()), "second result is the flag variable")
				} else {
					r.Fail(fn+" returns the mutation flag it computed", r.W.Pos(f.Node().Pos()), "the final return does not return the flag variable")
				}
			}),
			rule("R18c", "calcMultiLayerMerkleInfo: deterministic merge of per-chain roots", 4, func(r *Run) {
				workerMergeByIndex(r, mk+"calcMultiLayerMerkleInfo")
			}),
			rule("R18d", "leaf digests and fork gating", 6, func(r *Run) {
				for _, x := range []struct{ fn, digest string }{{mk + "calcMerkleRoot", "types.(*Transaction).Hash"}, {mk + "calcSingleLayerMerkleRoot", "types.(*Transaction).FullHash"}, {mk + "CalcMerkleRootCache", "types.(*TransactionCache).Hash"}} {
					f := r.Fn(x.fn)
					if f == nil {
						continue
					}
					c := f.Ctx()
					ok := false
					core.InspectBody(f, func(n ast.Node) bool {
						rs, isR := n.(*ast.RangeStmt)
						if !isR || !core.IsObj("param:0")(c, rs.X) || len(rs.Body.List) != 1 {
							return true
						}
						if as, isAs := rs.Body.List[0].(*ast.AssignStmt); isAs && len(as.Rhs) == 1 {
							if call, isC := as.Rhs[0].(*ast.CallExpr); isC && core.IsBuiltinCall(c.Info, call, "append") && len(call.Args) == 2 && core.CallAtom([]string{x.digest})(c, call.Args[1]) {
								ok = true
							}
						}
						return true
					})
					label := fmt.Sprintf("%s hashes every transaction, in order, with %s", x.fn, x.digest)
					if ok {
						r.OK(label, r.W.Pos(f.Node().Pos()), "single append per element of the input range")
					} else {
						r.Fail(label, r.W.Pos(f.Node().Pos()), "leaf list is not built by appending the required digest for each input element in order")
					}
					core.CallArgs{Fn: x.fn, Callee: []string{mk + "GetMerkleRoot"}, What: "root over exactly that leaf list", Args: map[int]core.ExprPred{0: func(c *core.Ctx, e ast.Expr) bool {
						_, isId := ast.Unparen(e).(*ast.Ident)
						return isId
					}}, Min: 1}.Check(r)
				}
				isRootFork := func(c *core.Ctx, e ast.Expr) bool { n, ok := forkCall(c, e); return ok && n == "ForkRootHash" }
				core.Dominated{Fn: mk + "CalcMerkleRoot", Spec: &core.FlowSpec{Conds: []core.CondGuard{core.BoolGuard("pre-fork", isRootFork, false), core.BoolGuard("post-fork", isRootFork, true)}},
					Sink: core.CallSink(mk + "calcMerkleRoot"), Need: []Fact{"pre-fork"}, Min: 1}.Check(r)
				core.Dominated{Fn: mk + "CalcMerkleRoot", Spec: &core.FlowSpec{Conds: []core.CondGuard{core.BoolGuard("pre-fork", isRootFork, false), core.BoolGuard("post-fork", isRootFork, true)}},
					Sink: core.CallSink(mk + "calcMultiLayerMerkleInfo"), Need: []Fact{"post-fork"}, Min: 1}.Check(r)
			}),
		},
	})
}
